#!/bin/bash
# Development aid: which lines of the library do the rapidcheck harnesses reach?
#   tools/coverage.sh [cases-per-target]      -> .build/coverage/report.txt (per-file) and uncovered.txt (functions never entered)
# Every rapidcheck target is rebuilt in the "cov" (or "cov-sched") flavour (clang source-based coverage, no sanitizers),
# run once with a small case count, the profiles are merged and reported for the library sources.
set -e
cd "$(dirname "$0")/.."
N=${1:-1500}
OUT=.build/coverage; rm -rf $OUT; mkdir -p $OUT
python3 - "$N" <<'PY'
import sys, os, subprocess, json
sys.path.insert(0, '.'); sys.path.insert(0, 'engine')
import build, targets as T
n = int(sys.argv[1])
bins = []
for name, t in sorted(T.TARGETS.items()):
    if t.get('kind', 'rc') != 'rc':
        continue
    t2 = dict(t); t2['flavour'] = 'cov-sched' if t.get('wrap') else 'cov'; t2['name'] = name + '_cov'
    try:
        b = build.build_target(t2)
    except SystemExit as e:
        print('skip', name, e); continue
    env = dict(os.environ, RC_PARAMS='seed=7 max_success=%d' % n, LLVM_PROFILE_FILE='.build/coverage/%s.profraw' % name, TZ='UTC',
               VERIF_KNOWN=','.join(k['id'] for k in json.load(open('known_findings.json'))['findings'] if k.get('status') == 'known'))
    env.update(t.get('env', {}))
    env.pop('ASAN_OPTIONS', None)
    r = subprocess.run([b, '--stats', '.build/coverage/%s.stats' % name], env=env, stdout=subprocess.DEVNULL, stderr=subprocess.DEVNULL)
    print(name, 'exit', r.returncode)
    bins.append(b)
open('.build/coverage/bins.txt', 'w').write('\n'.join(bins))
PY
llvm-profdata-14 merge -o $OUT/all.profdata $OUT/*.profraw
ARGS=""; first=""; for b in $(cat $OUT/bins.txt); do if [ -z "$first" ]; then first=$b; else ARGS="$ARGS -object $b"; fi; done
llvm-cov-14 report $first $ARGS -instr-profile=$OUT/all.profdata ${VERIF_REPO:-/repo}/source ${VERIF_REPO:-/repo}/include 2>/dev/null > $OUT/report.txt
llvm-cov-14 report $first $ARGS -instr-profile=$OUT/all.profdata -show-functions ${VERIF_REPO:-/repo}/source/*.c ${VERIF_REPO:-/repo}/source/external/cJSON.c ${VERIF_REPO:-/repo}/source/posix/*.c 2>/dev/null | awk '$2>0 && $3==$2 {print}' > $OUT/uncovered.txt || true
tail -3 $OUT/report.txt

#!/usr/bin/env python3
"""Runs the registered checks against the seeded changes kept under /verif/seeded/<id>/.

Each seeded change has patch.diff (against /repo HEAD), a demonstration, and meta.json
({"property": "C08", ...}).  For every change: copy /repo's source+include to a scratch tree
outside /repo and /verif, apply the patch there, run `./check <property> --tier quick` with
VERIF_REPO pointing at the scratch tree (thorough if quick stays green), record the verdict in
seeded/<id>/result.json, remove the scratch tree.  /repo itself is never modified.

    tools/run_seeded.py [id ...]      (default: all)
"""
import json
import os
import shutil
import subprocess
import sys
import time

ROOT = os.path.dirname(os.path.dirname(os.path.abspath(__file__)))
DIR = os.environ.get("SEEDED_DIR", "seeded")  # own_mutants/ has the same layout (patch.diff + meta.json)
REPO = "/repo"


def run(cmd, **kw):
    return subprocess.run(cmd, stdout=subprocess.PIPE, stderr=subprocess.STDOUT, text=True, **kw)


def main():
    ids = sys.argv[1:] or sorted(d for d in os.listdir(os.path.join(ROOT, DIR))
                                 if os.path.isfile(os.path.join(ROOT, DIR, d, "patch.diff")))
    summary = []
    for sid in ids:
        d = os.path.join(ROOT, DIR, sid)
        meta = json.load(open(os.path.join(d, "meta.json")))
        prop = meta["property"]
        scratch = "/tmp/seeded-run-%s-%d" % (sid, os.getpid())
        shutil.rmtree(scratch, ignore_errors=True)
        os.makedirs(scratch)
        run(["rsync", "-a", REPO + "/source", REPO + "/include", scratch + "/"])
        run(["git", "init", "-q"], cwd=scratch)
        r = run(["git", "apply", "--whitespace=nowarn", os.path.join(d, "patch.diff")], cwd=scratch)
        if r.returncode != 0:
            print("%s: patch does not apply: %s" % (sid, r.stdout))
            shutil.rmtree(scratch, ignore_errors=True)
            continue
        res = {"id": sid, "property": prop, "runs": []}
        caught = False
        for tier in ("quick", "thorough"):
            env = dict(os.environ, VERIF_REPO=scratch)
            t0 = time.time()
            r = run([os.path.join(ROOT, "check"), prop, "--tier", tier], cwd=ROOT, env=env)
            viol = [ln for ln in r.stdout.splitlines() if ln.startswith("VIOLATION")]
            why = [ln for ln in r.stdout.splitlines() if ln.startswith("---- ")][:2]
            res["runs"].append({"tier": tier, "exit": r.returncode, "violations": len(viol), "wall_s": round(time.time() - t0, 1),
                                "first_message": (why[0][:400] if why else "")})
            if r.returncode == 1 and viol:
                caught = True
                break
            if os.environ.get("SEEDED_QUICK_ONLY"):
                break
        res["caught"] = caught
        json.dump(res, open(os.path.join(d, "result.json"), "w"), indent=1)
        shutil.rmtree(scratch, ignore_errors=True)
        shutil.rmtree(os.path.join(ROOT, "failures", prop), ignore_errors=True)
        summary.append((sid, prop, caught, res["runs"][-1]["tier"], res["runs"][-1]["wall_s"]))
        print("%-28s %s caught=%s (%s, %.0fs) %s" % (sid, prop, caught, res["runs"][-1]["tier"], res["runs"][-1]["wall_s"],
                                                      res["runs"][-1]["first_message"][:160]))
    return 0


if __name__ == "__main__":
    sys.exit(main())

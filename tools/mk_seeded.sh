#!/bin/bash
# usage: mk_seeded.sh <id> <property> <srcdir> <patch> <demo> <notes> "<needs to manifest>" ['{"extra":"json"}']
id=$1; prop=$2; src=$3; patch=$4; demo=$5; notes=$6; shift 6
d=/verif/seeded/$id; mkdir -p $d; cp $src/$patch $d/patch.diff; cp $src/$demo $d/demo.c; cp $src/$notes $d/notes.md
python3 - "$id" "$prop" "$@" <<'PY'
import json,sys
sid,prop,needs=sys.argv[1],sys.argv[2],sys.argv[3]
extra=json.loads(sys.argv[4]) if len(sys.argv)>4 else {}
m={"id":sid,"property":prop,"needs_to_manifest":needs,"source":"independent sub-agent given only the property text and a scratch worktree","demo":"demo.c"}
m.update(extra)
json.dump(m,open('/verif/seeded/%s/meta.json'%sid,'w'),indent=1)
PY

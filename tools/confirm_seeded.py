#!/usr/bin/env python3
"""Confirms one seeded change independently of whoever wrote it.

    tools/confirm_seeded.py <seeded-id>

In a scratch git worktree of /repo (outside /repo and /verif, removed afterwards): apply
seeded/<id>/patch.diff, configure + build with CMake, run the 451-test suite, build the
demonstration against the changed library and against /repo's own baseline library, run both.
Writes the outcome into seeded/<id>/meta.json under "confirmed".
"""
import json
import os
import shutil
import subprocess
import sys
import time

ROOT = os.path.dirname(os.path.dirname(os.path.abspath(__file__)))


def sh(cmd, cwd=None, timeout=3600):
    r = subprocess.run(cmd, shell=True, cwd=cwd, stdout=subprocess.PIPE, stderr=subprocess.STDOUT, text=True, timeout=timeout)
    return r.returncode, r.stdout


def main():
    sid = sys.argv[1]
    d = os.path.join(ROOT, "seeded", sid)
    meta = json.load(open(os.path.join(d, "meta.json")))
    wt = "/tmp/cw-%s" % sid
    sh("git -C /repo worktree remove --force %s" % wt)
    shutil.rmtree(wt, ignore_errors=True)
    rc, out = sh("git -C /repo worktree add -q --detach %s HEAD" % wt)
    assert rc == 0, out
    conf = {"when": time.strftime("%Y-%m-%dT%H:%M:%SZ", time.gmtime()), "repo_head": sh("git -C /repo rev-parse --short HEAD")[1].strip()}
    try:
        rc, out = sh("git apply --whitespace=nowarn %s" % os.path.join(d, "patch.diff"), cwd=wt)
        conf["applies"] = rc == 0
        assert rc == 0, out
        rc, out = sh("cmake -S . -B _build -G Ninja -DCMAKE_BUILD_TYPE=RelWithDebInfo -DBUILD_TESTING=ON >/dev/null && cmake --build _build -j16 2>&1 | tail -3", cwd=wt)
        conf["compiles"] = rc == 0 and "FAILED" not in out and "error:" not in out
        rc, out = sh("ctest --test-dir _build -j12 --timeout 3000 2>&1 | grep -E 'tests passed|tests failed'", cwd=wt)
        conf["ctest"] = out.strip()
        conf["suite_passes"] = "100% tests passed, 0 tests failed out of 451" in out
        demo = meta.get("demo", "demo.c")
        flags = meta.get("demo_flags", "-g -O1")
        for which, base in (("with_change", wt), ("without_change", "/repo")):
            exe = "/tmp/cw-%s-demo-%s" % (sid, which)
            rc, out = sh("gcc %s %s -I %s/source -I %s/include -I %s/_build/generated/include %s/_build/libaws-c-common.a -lpthread -ldl -lm -o %s" %
                         (flags, os.path.join(d, demo), base, base, base, base, exe))
            if rc != 0:
                conf["demo_" + which] = {"build_failed": out[-800:]}
                continue
            runs = []
            for _ in range(int(meta.get("demo_runs", 2))):
                try:
                    rc, out = sh(exe, timeout=int(meta.get("demo_timeout", 300)))
                except subprocess.TimeoutExpired:
                    rc, out = 124, "timeout"
                runs.append({"exit": rc, "tail": out[-300:]})
            conf["demo_" + which] = runs
            os.unlink(exe)
        w, wo = conf.get("demo_with_change"), conf.get("demo_without_change")
        fails_with = isinstance(w, list) and w and all(r["exit"] != 0 for r in w)
        passes_without = isinstance(wo, list) and wo and all(r["exit"] == 0 for r in wo)
        conf["demo_fails_with_change"] = bool(fails_with)
        conf["demo_passes_without_change"] = bool(passes_without)
    finally:
        sh("git -C /repo worktree remove --force %s" % wt)
        shutil.rmtree(wt, ignore_errors=True)
    meta["confirmed"] = conf
    json.dump(meta, open(os.path.join(d, "meta.json"), "w"), indent=1)
    print(sid, json.dumps({k: v for k, v in conf.items() if not k.startswith("demo_w")}))


if __name__ == "__main__":
    main()

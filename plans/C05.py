rc_target("c05_base64hex", flavour="asan", portable_encoding=True)
plan("C05", [T("c05_base64hex", 5000, 50000)], min_nt=100,
     rule="tbd", technique="tbd", level_text="tbd", assumptions=[])

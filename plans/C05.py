# c05_base64hex links a second object compiled from source/encoding.c WITHOUT USE_SIMD_ENCODING (symbols renamed pt_*): the
# portable base64 code next to the default build, which takes the AVX2 path on this CPU.  c05_utf8 does not (the UTF-8 code
# has a single implementation; and only one target of a plan may use portable_encoding: ./check builds the targets of a plan
# in parallel threads and two simultaneous build_portable_encoding() calls collide on their pid-named temporary file).
# ASAN_OPTIONS as for C16: the harnesses allocate an exact-size heap block per library call (so that an over-read is an
# ASan report); with the default allocation-stack recording rapidcheck's deep, ever-different stacks make every worker
# grow by several kB per case, which a thorough run cannot afford.
_C05_ENV = {"ASAN_OPTIONS": "detect_leaks=0:abort_on_error=1:allocator_may_return_null=1:detect_stack_use_after_return=0:"
                            "handle_abort=0:malloc_context_size=0:quarantine_size_mb=16"}
rc_target("c05_base64hex", flavour="asan", portable_encoding=True, env=_C05_ENV)
rc_target("c05_utf8", flavour="asan", env=_C05_ENV)
fuzz_target("c05_codec_diff", portable_encoding=True, max_len=160)
plan("C05", [T("c05_base64hex", 20000, 200000), TT(GCC("c05_base64hex"), 20000), T("c05_utf8", 30000, 300000), F("c05_codec_diff", 15, 240, 2, 2)], min_nt=29000,
     rule="base64/hex: an input of >=25 bytes (>32 characters for decode), or a decode text whose mutation lies in the final quantum, or a "
          "256-value sweep of one final-quantum position; UTF-8: a generated cut point inside a multi-byte sequence",
     technique="property-based differential testing (rapidcheck): the default build (AVX2 path) and a portable build of source/encoding.c linked "
               "side by side under renamed symbols, both compared on every input with each other and with a table-free bit-stream reference "
               "codec written in the harness; outputs into guard-framed buffers pre-filled twice with different bytes; inputs in exact-size "
               "heap blocks under ASan; UTF-8 one-shot decoding compared with incremental decoding under generated chunkings",
     level_text="Exhaustive only over the final quantum of short inputs: on every run regress/C05/full_sweep.replay puts every byte value 0..255 "
                "at every position of the final quantum for every input length 0..100 (hex: 0..40, even and odd text length) through base64 "
                "encode + round trip, base64 decode of the canonical text with that one character replaced, hex encode and hex decode, on "
                "both builds and against the reference codec (about 2*10^5 inputs). Beyond that a generated search: byte strings of 0..700 "
                "bytes with lengths concentrated on 0..12, 19..36 and the neighbours of 48/56/64/72/96 (all residues mod 3, 4, 24, 32; both "
                "AVX2 loop thresholds), output capacity in {exact, exact-1, 0, exact+1, exact+40}, existing length 0/1/7 for the appending "
                "encoders; decode texts are canonical encodings mutated in one of eight ways (one character replaced by any byte, padding "
                "moved / added / removed, length changed, non-zero trailing bits, two encodings concatenated, random alphabet text); length "
                "predictors and the encoders' checked arithmetic at 2^32..2^64-1. UTF-8: harness-encoded code-point sequences over all "
                "length boundaries, undamaged or damaged in one of eight ways, each decoded one-shot, under a generated chunking (60% of the "
                "cut points inside a multi-byte sequence, repeated cut points = empty chunks), byte-at-a-time and under the mirrored "
                "chunking by one re-used decoder object, with and without a callback, and with a callback failing at the k-th code point. "
                "Sampling, not proof, outside the swept set.",
     assumptions=["the default build takes the AVX2 path only on a CPU with AVX2 (class default_build_on_avx2_path counts the cases where it did; "
                  "without AVX2 the differential part is vacuous and only the reference comparison remains); AWS_COMMON_AVX2 is removed from the environment",
                  "aws_hex_encode, aws_hex_decode and aws_base64_decode are called with an empty output buffer (len 0), as their documentation assumes; "
                  "aws_base64_encode and aws_hex_encode_append_dynamic append and are checked for that",
                  "when a decode text is malformed AND the capacity is below the predicted length either SHORT_BUFFER or the INVALID_* error is accepted "
                  "(but the same one on both builds)",
                  "after a failed decode only return value, error code and len are compared between the builds, not the buffer content; after "
                  "SHORT_BUFFER the output (len and bytes) must be untouched",
                  "bytes between the reported len and the capacity are not asserted; bytes outside the capacity (64-byte guards) must never change",
                  "aws_hex_compute_decoded_len(SIZE_MAX) may report overflow although 2^63 fits (no buffer of that size exists); every other "
                  "predictor must fail exactly when the true length exceeds SIZE_MAX",
                  "lengths >= 2^32 are only passed to calls whose checked arithmetic or capacity test must refuse before the input is read "
                  "(never to aws_base64_decode, which looks at the last two characters first)",
                  "UTF-8: the property is chunking-invariance; in addition texts that are valid or invalid BY CONSTRUCTION in the generator "
                  "(harness-encoded scalar values; exactly one truncated / overlong / surrogate / stray-continuation / invalid-lead / broken-"
                  "continuation defect) must get the verdict RFC 3629 and encoding.h document; code points above U+10FFFF and random byte "
                  "strings carry no expected verdict (the decoder's acceptance of > U+10FFFF is outside this property)",
                  "after a failed aws_utf8_decoder_update the harness calls aws_utf8_decoder_reset before re-using the decoder; after "
                  "finalize it re-uses it directly"])

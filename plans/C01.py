rc_target("c01_bytebuf", flavour="asan-dbg")
plan("C01", [T("c01_bytebuf", 20000, 75000), TT(GCC("c01_bytebuf"), 8000)], min_nt=8000,
     rule="stateful command sequences over byte buffers and cursors against a plain model and a full before/after snapshot",
     technique="model-based property testing (rapidcheck): command sequences vs. a plain model of every buffer and cursor; "
               "full-state snapshot equality for every command that reports failure and for every read-only command; guard bytes, "
               "exact-size source arrays under ASan, guarded allocator with a release observer for the secure variants; "
               "library pre/post-conditions enabled (DEBUG_BUILD)",
     level_text="Generated search: thousands of shrinking command sequences per run over ~85 buffer/cursor operations "
                "(init/copy/append/write/reserve/advance/read/split/trim/compare/parse, secure variants, file and aws_string helpers) "
                "on owned, borrowed and empty buffers, with sizes biased to 0, 1, exact fit, one short, one over, SIZE_MAX/2 and SIZE_MAX "
                "neighbours, self-aliasing appends and huge-length cursors. Sampling, not proof: absence of a violation is not established.",
     assumptions=["out-of-memory is fatal by design and not generated; sizes >= SIZE_MAX/2 are only given to operations whose size checks must reject them before touching memory",
                  "documented caller obligations are respected: no overlap for restrict-qualified parameters and append_with_lookup, a cursor appended to the buffer it points into lies in the used part, compare_lexical gets non-NULL pointers, next_split starts from a zeroed substr, views into a block are dropped once the block was handed back",
                  "a cursor of length exactly SIZE_MAX/2 is not generated as an object (no such object can exist); SIZE_MAX/2 is used as a length argument",
                  "bytes between len and capacity of a freshly (re)allocated buffer are unspecified and adopted, not asserted",
                  "the harness reads the public struct fields of aws_byte_buf / aws_byte_cursor"])

# The SBA takes its pages from posix_memalign()/free() directly, not from the parent allocator; both are
# wrapped at link time so the harness can count live pages independently of the allocator's own metric
# (observation only).  The threaded target also wraps aws_mutex_lock/unlock to see which thread is inside
# a bin's critical section.  cxxflags are part of the single compile+link command of a target.
_C03_WRAP = ["-Wl,--wrap=posix_memalign", "-Wl,--wrap=free"]
rc_target("c03_sba", flavour="asan", cxxflags=_C03_WRAP)
# the same harness with source/allocator_sba.c as gcc -O2 builds it (the project's own compiler): gcc removes the plain stores
# that erase a page's tags before free() as dead, clang keeps them - the "recycling parent" cases only bite on a gcc-built file
rc_target("c03_sba_gcc", src="harness/c03_sba.cpp", flavour="asan", cxxflags=_C03_WRAP, gcc_objects=["source/allocator_sba.c"])
rc_target("c03_sba_mt", flavour="sched", wrap=True,
          cxxflags=_C03_WRAP + ["-Wl,--wrap=aws_mutex_lock", "-Wl,--wrap=aws_mutex_unlock"])
# second engine for the threaded clause: free-running threads under ThreadSanitizer (see c17_race / DESIGN 9.4 e)
rc_target("c03_race", flavour="tsan", race_oracle=True)
plan("C03", [T("c03_sba", 4000, 14000), T("c03_sba_mt", 2500, 8000), T("c03_race", 1500, 12000, 3, 8), T("c03_sba_gcc", 2500, 10000, 2, 6)], min_nt=2500,
     rule="command histories against a block table + interval map + independently observed pages; threaded histories x schedules",
     technique="model-based property testing (rapidcheck): per-block patterns re-verified after every command, interval map, "
               "size-class accounting model, page observation by link-time interposition; threads under the controlled scheduler + the same kind of generated program on free-running threads under ThreadSanitizer (race report or functional oracle)",
     level_text="Generated search. Sequential: thousands of shrinking histories of up to 400 acquire/calloc/realloc/release commands "
                "(class edges, both directions across the 512-byte boundary, LIFO/FIFO/random/whole-page/release-all orders); every live "
                "block carries a pattern over its requested size that is re-verified after every command, new blocks are checked for "
                "alignment and disjointness, bytes_active is compared with the sum of the classes of the live small blocks, pages are "
                "counted by interposing posix_memalign/free. Threaded: 2-3 threads with own command lists and hand-over on a "
                "multi-threaded allocator under a scheduler that owns every bin-mutex decision (plus the page allocation/free inside "
                "the critical section); sequential consistency, preemption only at those points. Sampling, not proof. Second engine (*_race target): real parallel threads under ThreadSanitizer, whose happens-before analysis sees unsynchronised accesses that the controlled scheduler cannot (a section without lock calls has no decision point); a report or a functional failure there is a violation, replayed 12 times and reported when it shows twice.",
     assumptions=["out-of-memory is fatal by design and not generated (sizes <= 8 KiB)",
                  "no block is written beyond its requested size; patterns never contain AWS_SBA_TAG_VALUE (design limit of tag detection)",
                  "realloc/release are given the size/pointer of the most recent (re)allocation of that block",
                  "threaded part: sequential consistency, preemption only at lock/unlock of a bin mutex and at page allocation/free (DESIGN 4.4)"])

rc_target("c08_thread_sched", flavour="sched", wrap=True)
# second engine: free-running clients and scheduler thread under ThreadSanitizer (see c17_race / DESIGN 9.4 e)
rc_target("c08_race", flavour="tsan", race_oracle=True)
plan("C08", [T("c08_thread_sched", 3000, 30000), T("c08_race", 800, 8000, 3, 8)], min_nt=150,
     rule="client programs x schedules under the controlled scheduler with a virtual clock",
     technique="property-based testing over (program, schedule) pairs: controlled scheduler (locks, condvars, atomics, clock as decision points), history oracle + the same kind of generated program on free-running threads under ThreadSanitizer (race report or functional oracle)",
     level_text="Generated search over multi-threaded programs and schedules: real library threads are serialised by a scheduler that owns every "
                "lock / condition-variable / atomic / clock / create / join decision and a virtual clock, so wake-up placement, timer expiry and "
                "release timing are generated data. Oracle: exactly-once invocation, RUN only on the scheduler thread and not early, CANCELED only "
                "for cancelled tasks or during a release, final release returns after the thread exited, no leak, no deadlock. Sequential "
                "consistency only; sampling, not proof. Second engine (*_race target): real parallel threads under ThreadSanitizer, whose happens-before analysis sees unsynchronised accesses that the controlled scheduler cannot (a section without lock calls has no decision point); a report or a functional failure there is a violation, replayed 12 times and reported when it shows twice.",
     assumptions=["sequential consistency; preemption only at intercepted operations (DESIGN 4.4)",
                  "cancel is issued only for tasks that cannot have run yet (far-future tasks of the same client)",
                  "every user of the scheduler holds a reference while using it"])

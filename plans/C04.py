for _t, _ml in (("c04_xml", 2048), ("c04_json", 4096), ("c04_cbor", 2048), ("c04_uri", 1024), ("c04_datetime", 120),
                ("c04_codec", 1024), ("c04_misc", 512)):
    fuzz_target(_t, max_len=_ml)
rc_target("c04_deep", flavour="asan", replay_timeout=150)
plan("C04", [T("c04_deep", 60, 300, 4, 8)] + [F(t, 20, 300, 2, 2) for t in ("c04_xml", "c04_json", "c04_cbor", "c04_uri", "c04_datetime", "c04_codec", "c04_misc")],
     min_nt=1000, quick_cap_s=200, thorough_cap_s=900,
     rule="coverage-guided byte fuzzing per decoder family, decoded by a data-provider layer into (knobs, callback program, input)",
     technique="coverage-guided fuzzing (libFuzzer + ASan/UBSan) with the failure-channel / view-bounds / balance oracle inside each target",
     level_text="Coverage-guided search over byte strings for each decoder family (XML incl. callback programs, JSON, CBOR incl. decoder call "
                "programs, URI + query + percent coding, date-time, base64/hex/UTF-8, UUID/IP/number/split). The oracle is inside the target: the "
                "call returns, failure comes through the documented channel with a registered error code, every view lies inside the input, "
                "output stays within capacity, nothing is left allocated. Exact-size heap copies make a one-byte overrun an ASan report. "
                "Sampling: absence of a finding is not a proof of totality.",
     assumptions=["inputs up to the per-target max_len (120 B .. 4 KiB); deep nesting is covered by the c04_deep target",
                  "libFuzzer campaigns are only approximately pinned by -seed; a saved crash input is the reproducible unit",
                  "slow-unit / timeout / oom artifacts are load noise, only crash- artifacts that reproduce 3/3 are reported"])

# Same ASan options as the driver's defaults plus a small quarantine and short allocation stacks: with the defaults a
# rapidcheck worker grows by ~10-25 kB per case (stack depot of deep generator stacks + 256 MB quarantine), i.e. several
# GB per worker at the thorough case count.  32 MB of quarantine is still hundreds of cases' worth of freed blocks.
_C09_ENV = {"ASAN_OPTIONS": "detect_leaks=0:abort_on_error=1:allocator_may_return_null=1:detect_stack_use_after_return=0:"
                            "handle_abort=0:quarantine_size_mb=32:malloc_context_size=5"}
rc_target("c09_array", flavour="asan-dbg", env=_C09_ENV)
rc_target("c09_linked", flavour="asan-dbg", env=_C09_ENV)
plan("C09", [T("c09_array", 25000, 150000), TT(GCC("c09_array"), 8000), T("c09_linked", 25000, 150000), TT(GCC("c09_linked"), 8000)], min_nt=12000,
     rule="stateful command sequences against a reference sequence (array list: vector of byte strings per list; linked list: two id vectors + membership table)",
     technique="model-based property testing (rapidcheck): command sequences vs. a reference sequence, full content / traversal comparison after every command",
     level_text="Generated search: thousands of shrinking command sequences (<=60 commands) per run. Array list: two lists of one item size in "
                "{1,3,8,127,128,129,300}, dynamic (initial allocation 0-6) or over guarded caller storage (1-10 items), every command of the API "
                "including set_at with gaps, indices at/beyond the length and indices whose byte size overflows; after each command length, every "
                "element via get_at, capacity >= length, is_valid, storage ownership, guard bytes and allocator canaries are compared with the "
                "reference; the library's own pre/postconditions are fatal (DEBUG_BUILD). Linked list: two lists over a pool of 12 nodes, all "
                "pointer-surgery commands incl. adjacent/identical/cross-list swap_nodes and splices; after each command bounded raw forward and "
                "backward walks, the iterator API, is_valid_deep, empty and node_is_in_list are compared with the reference and detached nodes "
                "must have NULL links. Sampling, not proof: absence of a violation is not established.",
     assumptions=["out-of-memory is fatal by design and not generated; 'huge' indices are only those whose (index+1)*item_size overflows size_t",
                  "fatal preconditions are caller obligations: swap indices < length, copy only from a list with storage, swap_contents only "
                  "between dynamic lists with the same allocator and item size, clean_up is followed by re-initialisation",
                  "elements created as gaps by set_at beyond the end are unspecified: adopted once after the command, required stable afterwards",
                  "sort is not required to be stable (qsort): the order among equal keys is adopted after checking permutation and order",
                  "allocator balance is not asserted for array lists (only that clean_up releases the current storage block)",
                  "linked list: a node is in at most one list, pop/front/back only on non-empty lists, remove/swap_nodes only on linked nodes",
                  "the harness reads the public struct fields (data, current_size, alloc; node next/prev) to check storage and links"])

rc_target("c20_threads", flavour="sched", wrap=True)
# second engine: free-running threads under ThreadSanitizer (plain unlocked accesses give the controlled scheduler no decision point)
rc_target("c20_race", flavour="tsan", race_oracle=True)
plan("C20", [T("c20_threads", 3000, 25000), T("c20_race", 2500, 20000, 3, 8)], min_nt=100,
     rule="thread trees x schedules under the controlled scheduler with a virtual clock",
     technique="property-based testing over (thread tree, schedule) pairs: controlled scheduler, event-log oracle, join accounting in the scheduler's thread table + the same kind of generated program on free-running threads under ThreadSanitizer (race report or functional oracle)",
     level_text="Generated search over launch/finish/join interleavings: the library's real thread wrapper, at-exit chain and managed-thread "
                "bookkeeping run on real pthreads serialised by a scheduler that decides at every lock / condition-variable / create / join / "
                "sleep operation. Oracle: function once, at-exit callbacks on the thread, once, in reverse order, before join returns; after "
                "join_all_managed every managed thread is finished and really joined exactly once, count 0, no leak, no deadlock/hang. "
                "Sequential consistency only; sampling, not proof. Second engine (*_race target): real parallel threads under ThreadSanitizer, whose happens-before analysis sees unsynchronised accesses that the controlled scheduler cannot (a section without lock calls has no decision point); a report or a functional failure there is a violation, replayed 12 times and reported when it shows twice.",
     assumptions=["sequential consistency; preemption only at intercepted operations (DESIGN 4.4)",
                  "at-exit callbacks do not register further callbacks (unspecified by the library)",
                  "in c20_threads only main and managed threads launch managed threads (c20_race also launches them from joinable threads)"])

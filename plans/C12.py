rc_target("c12_xml", flavour="asan")
plan("C12", [T("c12_xml", 40000, 200000), TT(GCC("c12_xml"), 8000)], min_nt=7000,
     rule="generated element trees x per-element callback action, compared event by event with a model of the document",
     technique="model-based property testing (rapidcheck): element trees rendered to a document, expected (depth, parent, name, attributes, body) "
               "event list computed from the tree and the per-element actions, compared inside the traversal callbacks",
     level_text="Generated search: thousands of shrinking element trees per run (<=48 elements, depth <=26, names from 13 that repeat, nest "
                "inside themselves and are prefixes of each other incl. 200/256/257 characters, 0-11 attributes with quoted or bare values, "
                "text without '<' '>', 7 preamble forms, leading/trailing white space, max_depth option 0 and 1..24 biased to the tree's own "
                "depth) with one of descend / read body / skip / abort per element. Every callback invocation is compared with the expected "
                "event (position in document order, depth and parent via the user data handed to the enclosing traversal, exact name, "
                "attribute names/values, exact body text, every cursor inside an exact-size heap copy of the document under ASan); return "
                "code and error code are compared with the model (success, the callback's own error, or AWS_ERROR_INVALID_XML for 11 "
                "attributes, a name over 256 on the skip/body path, a descend at the depth limit). In 18% of the cases the closing tag of "
                "one visited element is removed: the events before that point must be exact and the parse must end with "
                "AWS_ERROR_INVALID_XML. Sampling, not proof: absence of a violation is not established.",
     assumptions=["dialect: explicit start and end tags (no self-closing tags), single spaces between attributes, values without space, quote, "
                  "'<', '>', '=' (bare values alphanumeric), text without '<' and '>', preamble items without an inner '>'",
                  "limits as the code documents them: a node at depth d (root = 1) can be descended into only if d < max_depth (0 = 20), also "
                  "when it has no children; names over 256 characters are rejected on the skip/body path only and are reported normally when "
                  "traversed; more than 10 attributes reject the declaration before the element is reported",
                  "the callback reads name and attributes before it traverses the node, never both traverses and reads the body, uses "
                  "attribute indices < num_attributes, propagates a failed traverse/as_body as AWS_OP_ERR and raises an error before aborting",
                  "after an aborting callback aws_last_error() is expected to still be the callback's error",
                  "with a closing tag removed, events after the removal point (and the body of the element itself when an enclosing element "
                  "has the same name) are not constrained: the structure of the malformed rest is ambiguous; only the final error is required",
                  "allocator balance is not asserted (the statement does not talk about it); canaries of live blocks are"])

rc_target("c10_cbor", flavour="asan-fco")
plan("C10", [T("c10_cbor", 16000, 100000), TT(GCC("c10_cbor"), 8000)], min_nt=9000,
     rule="encoder call lists, decoded element by element and (well-formed nested variant) skipped item by item, every encoding "
          "also parsed by an independent RFC 8949 reader in the harness",
     technique="property-based round-trip testing (rapidcheck) with an independent reference reader: written sequence == reference "
               "reader's sequence == library decoder's sequence, shortest-head and smallest-lossless-float-form checks on the bytes, "
               "skip positions against the reference reader's item ends; ASan + UBSan float-cast-overflow on the library",
     level_text="Generated search: thousands of shrinking encoder call lists (<=120 calls) per run. Integers, negative integers, tags and "
                "array/map counts over every head-width boundary (23/24, 255/256, 65535/65536, 2^32-1/2^32, 2^63 neighbours, 2^64-1) plus "
                "bit-length-uniform and uniform 64-bit values; doubles from a table of ~190 boundary values (+-0, double/float subnormals, "
                "FLT_MIN/FLT_MAX and 2^63/2^64 with their nextafter neighbours, 2^24/2^32/2^53 neighbours, infinities, quiet/signalling/"
                "payload NaNs) plus random bit patterns, random floats and random integers of every magnitude (+0.5); strings of length "
                "0/1/23/24/255/256, 230-300, 301-1200, ~5000 and 65535/65536. Variant 'sequence': calls issued as generated (arbitrary "
                "counts, stray breaks), decoded with peek_type + typed pop / consume_next_single_element in 8 call patterns incl. a "
                "wrong-type pop. Variant 'nested': calls repaired into well-formed items of depth <= 3/6/12/64 with definite counts up to "
                "65536, indefinite containers/strings and tags, followed by a sentinel (item, break byte, or nothing); every top-level item "
                "and up to ~280 nested items per case are skipped with consume_next_whole_data_item (with and without cached look-ahead) "
                "and the remaining length compared with the reference reader's item end. reset + re-encode must reproduce the bytes. "
                "Sampling, not proof: absence of a violation is not established.",
     assumptions=["out-of-memory is fatal by design and not generated: strings are at most 65536 bytes, so the 2^32 length-head boundary is "
                  "exercised through array/map counts, tags and integers only (same head encoder)",
                  "nesting depth is at most 64 in this target: consume_next_whole_data_item recurses once per level (deep nesting is a "
                  "separate fuzz target)",
                  "'smallest form that loses nothing' is read as cbor.h documents it: integer if integral and inside int64, else binary32 if "
                  "exactly representable, else binary64, never half; so 2^62 or -2^63 stay 9-byte integers although a 5-byte single would do",
                  "floats are compared by numeric value (NaN matches NaN, payload and sign of NaN not compared); -0.0 may be stored as "
                  "integer 0 or as single -0.0",
                  "text strings are arbitrary bytes (neither side validates UTF-8)",
                  "consume_next_single_element on a definite string consumes head and payload (one libcbor stream element)",
                  "aws_cbor_encoder_write_single_float is exported by cbor.c but not declared in cbor.h; the harness declares it itself",
                  "after the last element peek_type must fail (any error code)",
                  "allocator balance is not asserted; guard bytes around every block are"])

rc_target("c19_datetime", flavour="asan")
# the same checks with the process in a non-UTC zone (POSIX TZ strings, no tzdata needed): every instant, accessor and
# parse result the property talks about is UTC-based and must not depend on the process time zone
rc_target("c19_datetime_tz_east", flavour="asan", src="harness/c19_datetime.cpp", env={"TZ": "IST-5:30"})
rc_target("c19_datetime_tz_west", flavour="asan", src="harness/c19_datetime.cpp", env={"TZ": "EST5EDT,M3.2.0,M11.1.0"})
plan("C19", [T("c19_datetime", 80000, 700000), TT(GCC("c19_datetime"), 20000), T("c19_datetime_tz_east", 25000, 150000, 2, 6), T("c19_datetime_tz_west", 25000, 150000, 2, 6)], min_nt=45000,
     rule="instants and harness-rendered date strings against an independent proleptic-Gregorian reference",
     technique="property-based testing (rapidcheck) against a reference calendar written in the harness (days-from-civil / civil-from-days, "
               "cross-checked at start-up against a day-by-day walk over 1970..9999): format/parse round trips, reference rendering, "
               "offset and designator arithmetic, epoch-view consistency",
     level_text="Generated search: tens of thousands of cases per run, each 1-6 operations. Instants are drawn uniformly from 1970..9999 and "
                "from every month boundary (+-1 s .. +-1 day) of the listed and of arbitrary years, leap days, century years, both extremes and "
                "the 2^31 / 2^32 second marks; every instant is formatted in all six (format x full/short) ways, compared with the reference "
                "text and parsed back with the explicit format, with auto-detection and with the other ISO flag. Parse-only inputs carry "
                "offsets -14:00..+14:00 (+-hhmm, ISO also +-hh:mm), Z/UT/UTC/GMT in both cases, ISO fractions and T/t/space. "
                "Sampling, not proof: absence of a violation is not established.",
     assumptions=["TZ=UTC, LC_ALL=C (set by the driver; the harness also sets TZ=UTC); only the UTC views and UTC formatters are checked",
                  "RFC 822 inputs always carry the weekday and a zone, four-digit years, two-digit days (as the formatter prints them)",
                  "UT/UTC/GMT designators, and offsets without a colon only, are generated for RFC 822; fractions, +-hh:mm and the T/t/space separator for ISO 8601 only (each format's own grammar)",
                  "after a fractional-seconds input only the whole second is asserted (the parser documents that it discards the fraction)",
                  "the nanosecond view is asserted only where the instant fits 64 bits (before 2554-07-21T23:34:34Z)",
                  "the RFC 822 date-only text is required to format like the reference; its parse-back is a separate sub-check, "
                  "skipped and counted (class excluded_known_rfc822_short) when VERIF_KNOWN lists datetime-rfc822-short-parse"])

rc_target("c13_uri_parse", flavour="asan")
rc_target("c13_uri_codec", flavour="asan")
plan("C13", [T("c13_uri_parse", 10000, 150000), T("c13_uri_codec", 10000, 150000)], min_nt=1000,
     rule="tbd", technique="tbd", level_text="tbd", assumptions=[])

rc_target("c13_uri_parse", flavour="asan")
rc_target("c13_uri_codec", flavour="asan")
plan("C13", [T("c13_uri_parse", 30000, 300000), TT(GCC("c13_uri_parse"), 8000), T("c13_uri_codec", 30000, 300000), TT(GCC("c13_uri_codec"), 8000)], min_nt=23000,
     rule="URI texts assembled from generated components and compared accessor by accessor; byte strings through both encoders, the decoder "
          "and the query iterator against reference implementations written in the harness",
     technique="property-based testing (rapidcheck), construction with remembered expectations: the harness assembles "
               "[scheme://][user[:password]@]host[:port][/path][?query] from components drawn over their RFC 3986 alphabets and requires every "
               "accessor (scheme, authority, userinfo, user, password, host_name, port, path, query_string, path_and_query) to return the "
               "component it put in, as a view inside the object's own copy of the text (the caller's text is overwritten and freed before the "
               "accessors are read); builder output is compared with the assembled text, with the options, and re-parsed; percent-coding is "
               "compared with a reference encoder/decoder and an explicit output-alphabet scan; query iteration (uri form, plain form, both "
               "list forms) with a reference split",
     level_text="Generated search: ~240 000 cases per quick run. Parser/builder: scheme present (72 %) or absent, user-info absent / user / "
                "user:password with empty parts, reg-name / IPv4 / bracketed literal (IPv6, zone id, IPvFuture) / empty host, port absent, empty, "
                "0, 1..65535, up to 2^32-1, 2^32 and above, 20 digits on both sides of 2^64, leading zeros, non-numeric; path empty or '/'-rooted "
                "segments with ':' and '@'; query absent, empty, or pairs with empty pairs, missing '=', repeated '&', '/' and '?'; 30 % of the "
                "cases go through aws_uri_init_from_builder_options (query_string or query_params). Codec: byte strings over all 256 values "
                "(0..1500 bytes) into buffers with 0..1000 bytes of prior content and 9 capacity classes around n and 3n, decoder texts with "
                "upper/lower-case escapes and malformed '%' (also cut off at the very end), encode->decode round trips, query iteration over raw "
                "strings. Heap guard bytes and ASan watch every buffer. Sampling, not proof: absence of a violation is not established.",
     assumptions=["scheme-less inputs (host[:port]/path?query, /path?query) are an extension of this parser whose documented heuristic is "
                  "\"the first ':' followed by '/' ends a scheme\": for them no \":/\" pair is generated in path or query and no empty port "
                  "directly before a path (constructed; classes excl_schemeless_colon_slash, excl_schemeless_emptyport_path)",
                  "a text with nothing after the optional \"scheme://\" (\"\" and \"s://\") is rejected by an explicit branch of the parser; an empty "
                  "authority is generated only when a path or a query follows (class excl_nothing_after_scheme)",
                  "scheme-carrying inputs always have the \"//\" authority form (the library's own test declares \"https:/host\" malformed); "
                  "fragments ('#') are not among the listed components and are not generated",
                  "builder inputs are pre-encoded, a path is empty or starts with '/', port 0 means no port, query_string and query_params are "
                  "mutually exclusive, IPv6 literals are passed with their brackets and read back without; an empty non-NULL parameter list may "
                  "or may not leave a bare '?' at the end of the text (both accepted, class builder_empty_list_qmark)",
                  "port: absent/empty/0 -> 0; decimal up to 4294967295 accepted with leading zeros; anything else must fail with "
                  "AWS_ERROR_MALFORMED_INPUT_STRING; after a failed parse nothing about the object is asserted",
                  "the coders are given dynamic buffers only (they call aws_byte_buf_reserve_relative, which refuses a buffer without allocator); "
                  "after a failed decode only the bytes that were in the buffer before the call are asserted",
                  "out-of-memory is fatal by design and not generated; leaks are not part of this statement and not asserted"])

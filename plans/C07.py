rc_target("c07_tasks", flavour="asan")
plan("C07", [T("c07_tasks", 5000, 60000)], min_nt=200,
     rule="stateful command programs with scripted re-entrant task functions against a pending-table model and a recorded call/invocation history",
     technique="model-based property testing (rapidcheck): command programs + per-task scripts vs. a pending-table model; invariants (a)-(h) evaluated over the recorded history after every command",
     level_text="Generated search: thousands of shrinking programs per run.",
     assumptions=["out-of-memory is fatal by design and not generated"])

rc_target("c07_tasks", flavour="asan")
plan("C07", [T("c07_tasks", 50000, 400000), TT(GCC("c07_tasks"), 8000)], min_nt=12000,
     rule="command programs with scripted re-entrant task functions against a pending-table model; non-trivial = re-entrant schedule and in-batch cancel both occur",
     technique="model-based property testing (rapidcheck): command programs (schedule_now / schedule_future / cancel / run_all / has_tasks / "
               "clean_up+re-init) whose task functions execute generated scripts (schedule others, re-schedule themselves, cancel pending tasks "
               "including ones already moved into the running batch); the C callbacks only record a call/invocation history, and the "
               "invariants exactly-once, never-early, due-tasks-all-run, run-now-first-then-time-order, nothing-scheduled-inside-runs-inside, "
               "cancel-invokes-before-returning, clean-up-drains-everything and next-task-time are evaluated from it after every command",
     level_text="Generated search: tens of thousands of shrinking programs per run (<=50 commands, <=16 tasks, <=36 script steps), timestamps "
                "biased to 0, small equal/increasing/decreasing runs, 2^63 neighbours, UINT64_MAX-1 and UINT64_MAX, under AddressSanitizer "
                "with a canary allocator; the relative order of timed tasks with equal timestamps is not predicted. "
                "Sampling, not proof: absence of a violation is not established.",
     assumptions=["out-of-memory is fatal by design and not generated; therefore the timed_list overflow path (taken only when the heap push fails) is never exercised",
                  "a task is scheduled only while it is not pending, and cancel_task is issued only for a pending task (both caller obligations, tracked in the model)",
                  "task functions schedule new work when invoked with CANCELED at most once per generated on-cancel step, so clean_up terminates",
                  "next-task-time is queried between top-level commands only (inside run_all the detached batch is not visible to the query and the documentation promises nothing there)",
                  "a run_all / clean_up call that consumes more than 1 s of user CPU time on <=16 tasks is reported as a hang"])

rc_target("c15_ring", flavour="sched", wrap=True)
# second engine: free-running acquirer / releaser under ThreadSanitizer (head / tail accesses that lost their atomicity or ordering)
rc_target("c15_race", flavour="tsan", race_oracle=True)
plan("C15", [T("c15_ring", 5000, 40000), T("c15_race", 1500, 12000, 3, 8)], min_nt=300,
     rule="sequential histories and two-thread histories under generated schedules (walk / bounded-preemption / PCT)",
     technique="property-based testing over (program, schedule) pairs: controlled scheduler with decision points at every atomic, overlap/containment/pattern oracle + the same kind of generated program on free-running threads under ThreadSanitizer (race report or functional oracle)",
     level_text="Generated search over request sequences and thread schedules. One acquirer and one releaser thread run on real pthreads under a "
                "scheduler that serialises them and lets a generated schedule decide at every atomic load/store who continues; each vended "
                "buffer is checked against every outstanding one, patterned and re-verified before release. Explores interleavings under "
                "sequential consistency only; sampling, not proof. Second engine (*_race target): real parallel threads under ThreadSanitizer, whose happens-before analysis sees unsynchronised accesses that the controlled scheduler cannot (a section without lock calls has no decision point); a report or a functional failure there is a violation, replayed 12 times and reported when it shows twice.",
     assumptions=["sequential consistency: reorderings only a weaker memory model permits are not explored (DESIGN 4.4)",
                  "releases are issued in acquisition order by one thread, acquires by one other thread (the documented usage)",
                  "a buffer counts as released from the moment its release call is entered"])

rc_target("c15_ring", flavour="sched", wrap=True)
plan("C15", [T("c15_ring", 5000, 40000)], min_nt=300,
     rule="sequential histories and two-thread histories under generated schedules (walk / bounded-preemption / PCT)",
     technique="property-based testing over (program, schedule) pairs: controlled scheduler with decision points at every atomic, overlap/containment/pattern oracle",
     level_text="Generated search over request sequences and thread schedules. One acquirer and one releaser thread run on real pthreads under a "
                "scheduler that serialises them and lets a generated schedule decide at every atomic load/store who continues; each vended "
                "buffer is checked against every outstanding one, patterned and re-verified before release. Explores interleavings under "
                "sequential consistency only; sampling, not proof.",
     assumptions=["sequential consistency: reorderings only a weaker memory model permits are not explored (DESIGN 4.4)",
                  "releases are issued in acquisition order by one thread, acquires by one other thread (the documented usage)",
                  "a buffer counts as released from the moment its release call is entered"])

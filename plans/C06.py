rc_target("c06_pq", flavour="asan-dbg")
plan("C06", [T("c06_pq", 20000, 120000), TT(GCC("c06_pq"), 20000)], min_nt=200,
     rule="stateful op sequences against a reference multiset + handle table",
     technique="model-based property testing (rapidcheck): op sequences vs. reference multiset + handle table, heap-order invariant after every step",
     level_text="Generated search: thousands of shrinking op sequences per run over push/push_ref/pop/top/remove/clear for 9 element sizes, "
                "dynamic and static storage, each step compared with a reference multiset and a handle table and followed by a heap-order, "
                "handle-position and guard-byte check. Sampling, not proof: absence of a violation is not established.",
     assumptions=["out-of-memory is fatal by design and not generated",
                  "a handle is in at most one queue at a time (caller obligation)",
                  "the harness reads the public struct fields (container, current_index) to check positions"])

rc_target("c18_lht", flavour="asan")
rc_target("c18_cache", flavour="asan")
plan("C18", [T("c18_lht", 30000, 200000), TT(GCC("c18_lht"), 8000), T("c18_cache", 30000, 200000), TT(GCC("c18_cache"), 8000)], min_nt=20000,
     rule="stateful op sequences against a reference ordered map (vector of id/key*/value*) with per-object destructor counters",
     technique="model-based property testing (rapidcheck): op sequences vs. reference ordered map; whole iteration list, "
               "lookup of every id and every destructor counter compared after every step",
     level_text="Generated search: thousands of shrinking op sequences per run. Linked hash table: put (equal-but-distinct key "
                "object or the stored pointer again) / find / find_and_move_to_back / remove / clear / move_node_to_end / "
                "clean_up+init over 2-24 ids, 5 hash plans (incl. constant and zero), destructors on/off. Caches: FIFO, LIFO, LRU "
                "with max_items 1-8, puts aimed at new ids, existing ids and the would-be victim, find / remove / clear / "
                "use_lru_element / get_mru_element. After every step the complete list order, the lookup of every id, the count "
                "bound, every key/value destructor counter and the allocator guard bytes are compared with the reference; allocator "
                "balance 0 after clean_up / destroy. Sampling, not proof: absence of a violation is not established.",
     assumptions=["out-of-memory is fatal by design and not generated",
                  "a value object is put once and a destroyed key pointer is never reused (caller obligations)",
                  "use_lru_element / get_mru_element are only called on LRU caches; max_items >= 1",
                  "put of an existing key counts as a new insertion for FIFO/LIFO age (the caches sit on the linked hash table, "
                  "whose put moves the entry to the back)",
                  "the stored key pointer after a re-put is the new one (code comment in aws_linked_hash_table_put)",
                  "the harness reads the public struct fields cache->table, table->list and the node fields key/value/table"])

rc_target("c02_map", flavour="asan-dbg")
rc_target("c02_libhash", flavour="asan")
plan("C02", [T("c02_map", 4000, 50000), T("c02_libhash", 4000, 50000)], min_nt=200,
     rule="stateful command sequences against a reference map",
     technique="model-based property testing (rapidcheck)",
     level_text="tbd", assumptions=[])

rc_target("c02_map", flavour="asan-dbg")
rc_target("c02_libhash", flavour="asan")
plan("C02", [T("c02_map", 20000, 150000), TT(GCC("c02_map"), 8000), T("c02_libhash", 30000, 200000), TT(GCC("c02_libhash"), 10000)], min_nt=20000,
     rule="stateful command sequences over two hash tables against a reference map with per-object destructor counters; "
          "all-pairs equal=>equal-hash check plus the same map model over the library's own hash/equality pairs",
     technique="model-based property testing (rapidcheck): generated command sequences and generated hash plans vs. a reference "
               "std::map; every stored/absent key looked up and a full iteration compared after every command; destructor "
               "calls counted per key/value object",
     level_text="Generated search: per run tens of thousands of shrinking command sequences (<=60 commands: put, create, find+set, remove "
                "with/without out-parameter, remove_element, clear, swap, move, clean_up+init, iterator walks and foreach with "
                "generated per-element keep/delete decisions, unrepresentable init sizes) over two tables with 9 hash plans consistent with "
                "equality (real, constant, id mod 3, end of the current slot array, all-ones end, zero, identity, same-slot/different-code, "
                "generated table), 16 initial sizes and 4 destructor configurations; after every command the entry count, a lookup of every "
                "id used so far through a pointer-distinct key, a full plain iteration and every key/value object's destructor count are "
                "compared with the reference. A second target checks equal=>equal hash and equality itself for all pairs of 8-40 keys "
                "per case under the six library hash/equality pairs (27 words of length 0-47 in mixed case at 8 alignments, 16 numbers, 16 "
                "pointer values; the three string-like hashes must agree on the same bytes) and runs the map model over them. Sampling, "
                "not proof: absence of a violation is not established; hash values are chosen per id, not exhaustively per layout.",
     assumptions=["out-of-memory is fatal by design and not generated; init sizes whose slot array overflows size_t must fail before allocating",
                  "a key's hash is a fixed function of its id for the whole case (the documented caller obligation); hash and equality callbacks are consistent",
                  "tables are only used while initialised, except swap and clean_up which are documented for uninitialised/cleaned-up tables; move only into an uninitialised or cleaned-up table",
                  "the table is not mutated from inside a foreach callback other than through its return code; remove_element only with an element just returned by find",
                  "value objects are never re-used between puts; a value written through an element pointer replaces the old one without a destructor call (caller keeps the old one)",
                  "the NULL key is treated as one more key (hash_table.c documents 'reasonable semantics for null keys')",
                  "the private header hash_table_impl.h is read only to classify cases (wrap-around shifts, run lengths, resizes) and to aim hashes at the current end of the slot array; verdicts use the public API only",
                  "byte-cursor equality functions are called through typed wrappers rather than through a cast function pointer"])

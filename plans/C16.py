# the portable variant divides by an operand after a zero test: make a lost zero test a trap even where the compiler
# folds the division away
# ASAN_OPTIONS: the library code under test is pure arithmetic (no heap), so the harness does not need allocation stack
# traces or a large quarantine; with the defaults every worker grows by ~20 kB per case (rapidcheck's deep, ever-different
# allocation stacks fill ASan's stack depot) and a thorough run was OOM-killed at 2.2 GB per worker.
# c16_asm_consts.c: the inline-assembly variant with literal operands as gcc compiles it (register sharing between operands
# that hold the same constant is a gcc matter; clang and run-time operands do not show it)
rc_target("c16_math", flavour="asan", cxxflags=["-fsanitize=integer-divide-by-zero"], gcc_harness_objects=["harness/c16_asm_consts.c"],
          env={"ASAN_OPTIONS": "detect_leaks=0:abort_on_error=1:allocator_may_return_null=1:detect_stack_use_after_return=0:"
                               "handle_abort=0:malloc_context_size=0:quarantine_size_mb=16"})
plan("C16", [T("c16_math", 20000, 200000), TT(GCC("c16_math"), 20000)], min_nt=14000,
     rule="operand pairs / conversions on three implementation variants side by side against unsigned __int128; "
          "non-trivial = a generated pair whose exact sum or product is within 2 of the type's MAX on either side, or a "
          "generated conversion whose whole part saturates",
     technique="property-based differential testing (rapidcheck) of the compiler-builtin, portable (math.fallback.inl) and x86-64 "
               "inline-assembly (math.gcc_x64_asm.inl) variants compiled side by side from the repository's headers under renamed "
               "symbols, each compared with unsigned __int128 reference arithmetic and bit-by-bit definitions; plus a deterministic "
               "exhaustive cross product over the boundary set of the property's quantifier",
     level_text="Exhaustive over the boundary set only: every ordered pair from {0,1,2, 2^k-1, 2^k, 2^k+1, MAX-1, MAX, floor(MAX/b), "
                "floor(MAX/b)+1} (312 values for 64 bit, 152 for 32 bit; about 1.2*10^5 pairs) is evaluated on all three variants on "
                "every run (regress/C16/full_cross_product.replay), and one row of it in both operand orders inside every generated "
                "case. Beyond that a generated search: uniform, bit-length-uniform, exact-sum-next-to-MAX, exact-product-in-"
                "[MAX-2,MAX+3] (from the divisor pairs of those six numbers) and floor(MAX/a)+-1 pairs; conversions over the four "
                "units and arbitrary frequencies 1..10^9 with ticks next to the saturation point and next to multiples of the "
                "frequency ratio, remainder pointer NULL and non-NULL; clz/ctz/power-of-two helpers on every operand; min/max for "
                "all 13 types; aws_add_size_checked_varargs. 'evaluations' counts cases; each case checks about 1.2*10^3 operand "
                "pairs (exact total: sum over k of 2^k * classes['operand_pairs:2^k']). Sampling, not proof, outside the boundary set.",
     assumptions=["x86-64 / LP64 only: size_t forms are compared with the 64-bit forms; the assembly variant is the x86-64 one",
                  "frequencies are 1..10^9 as in the property's quantifier (zero is a fatal assert = caller obligation; above 2^32 the "
                  "fractional-part product may saturate, which the code comments accept)",
                  "the remainder out-parameter is zeroed by the caller before the call, as clock.h instructs",
                  "min/max of floating-point values is not asserted when an argument is NaN; for +0/-0 either zero is accepted",
                  "on overflow only the status and the error code are asserted, not the content of *r (the assembly variant writes it)",
                  "clz/ctz of the assembly configuration come from math.gcc_builtin.inl, the same code as the default variant",
                  "the size_t, subtraction and power-of-two helpers of math.inl exist once and dispatch to the default variant; "
                  "they are not re-instantiated on top of the portable / assembly variants"])

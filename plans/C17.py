rc_target("c17_memtrace", flavour="asan")
rc_target("c17_memtrace_mt", flavour="sched", wrap=True)
# second engine for the threaded clause: free-running threads under ThreadSanitizer (a critical section whose lock calls
# were removed is atomic under the controlled scheduler - no decision point inside - and only visible as a data race)
rc_target("c17_race", flavour="tsan", race_oracle=True)
plan("C17", [T("c17_memtrace", 8000, 60000), TT(GCC("c17_memtrace"), 6000), T("c17_memtrace_mt", 2000, 10000), T("c17_race", 1500, 12000, 3, 8)], min_nt=3000,
     rule="allocation histories against a reference live map; threaded histories x schedules under the controlled scheduler",
     technique="model-based property testing (rapidcheck): command sequences vs. a reference live map with block patterns; "
               "threaded programs x generated schedules under the controlled scheduler with an in-flight-operation oracle + the same kind of generated program on free-running threads under ThreadSanitizer (race report or functional oracle)",
     level_text="Generated search. Sequential part: up to 80 acquire / calloc / realloc (grow, shrink, same, to 0, from NULL) / release / "
                "dump / query commands through a tracer over three wrapped allocators (own realloc that always moves, own realloc that keeps "
                "the block when it fits, acquire/release only), all three levels and four stack depths; after every command "
                "aws_mem_tracer_bytes / aws_mem_tracer_count are compared with the reference live map and every block's pattern is "
                "re-verified; at the end everything is released, both figures are 0, destroy returns the wrapped allocator and its balance "
                "is 0. Threaded part: 2-3 threads with private and handed-over blocks run on real pthreads serialised by a scheduler with a "
                "decision point at every mutex, atomic and clock operation of the library; every query made while no other operation is in "
                "flight must be exact, a query made during other threads' operations must equal the reference plus one of the partial "
                "effects of those operations, and exact equality is asserted at harness barriers and after all threads were joined. "
                "Sampling under sequential consistency, not proof. Second engine (*_race target): real parallel threads under ThreadSanitizer, whose happens-before analysis sees unsynchronised accesses that the controlled scheduler cannot (a section without lock calls has no decision point); a report or a functional failure there is a violation, replayed 12 times and reported when it shows twice.",
     assumptions=["out-of-memory is fatal by design and not generated; zero-size acquire/calloc are fatal preconditions and not generated",
                  "the old size passed to aws_mem_realloc is the block's current requested size (caller obligation)",
                  "every block is used by one thread at a time (ownership is handed over explicitly)",
                  "sequential consistency; a preemption happens only at a mutex / atomic / clock operation of the library (DESIGN 4.4): "
                  "races on plain variables that are not bracketed by such an operation are not observable",
                  "the tracer's own bookkeeping memory comes from aws_default_allocator and is not balance-checked"])

rc_target("c11_json_tree", flavour="asan")
rc_target("c11_json_api", flavour="asan")
plan("C11", [T("c11_json_tree", 15000, 100000), TT(GCC("c11_json_tree"), 5000), T("c11_json_api", 25000, 150000), TT(GCC("c11_json_api"), 6000)], min_nt=8000,
     rule="value trees built through the API or parsed from harness-rendered text, serialised compact and formatted, read back by an "
          "independent strict RFC 8259 reader and by the library, compared through the public getters; add/get/has/remove/iterate programs "
          "on one object and one array against an ordered reference",
     technique="property-based testing (rapidcheck): round-trip oracle with an independent reader, number oracle (identical for <=15 significant "
               "digits, else within 2^-52 evaluated exactly), model-based API programs, allocator balance per case",
     level_text="Generated search. Tree part: each generated tree (null/bool/number/string/array/object, depth <= 8, 2% chains of up to 1000 "
                "containers) is built through the constructors or rendered to JSON text by the harness (own whitespace, \\uXXXX escapes incl. "
                "surrogate pairs, several number spellings) and parsed; it is serialised compact and formatted (appended to a non-empty buffer), "
                "both texts are read by the harness' own strict RFC 8259 reader and re-parsed by the library, and every tree is compared with "
                "the reference through the public getters (types, member order, key and string bytes, booleans, null, numbers by the stated "
                "oracle); aws_json_value_compare and aws_json_value_duplicate (which must survive destroying the original) are checked; every "
                "block of the module allocator must be released. API part: programs on one object and one array are compared step by step "
                "with an ordered reference list. Sampling, not proof: absence of a violation is not established.",
     assumptions=["NaN and infinities are outside 'finite' and are not generated; out-of-memory is fatal by design and not generated",
                  "object keys are unique ignoring ASCII letter case (the API refuses to build anything else); duplicate keys in parsed text are not generated",
                  "'within one part in 2^52' is read as |a-b| <= max(|a|,|b|) * 2^-52 in exact arithmetic",
                  "a number 'has at most 15 significant decimal digits' when it was generated from such a decimal or when printing it with 15 digits and reading that back gives the same double",
                  "number literals in harness text are shorter than 64 characters (the vendored parser copies at most 63)",
                  "nothing is asserted about keys that differ from a member's key only in letter case (header says case sensitive, lookup ignores case), nor about index == size",
                  "aws_json_value_compare is only called when at most 12 objects are nested (its cost doubles per nested object)",
                  "the harness re-executes itself with a 1 GiB stack for its own recursive walkers"])

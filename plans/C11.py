rc_target("c11_json_tree", flavour="asan")
plan("C11", [T("c11_json_tree", 4000, 50000)], min_nt=200,
     rule="value trees: build (API or harness text) -> serialise compact+formatted -> independent reader + re-parse -> compare through getters; duplicate",
     technique="property-based testing (rapidcheck)",
     level_text="Generated search.",
     assumptions=[])

rc_target("c14_log", flavour="asan")
rc_target("c14_bg", flavour="sched", wrap=True)
# second engine for the threaded clauses: free-running threads under ThreadSanitizer (see c17_race / DESIGN 9.4 e)
rc_target("c14_race", flavour="tsan", race_oracle=True)
plan("C14", [T("c14_log", 6000, 60000), T("c14_bg", 3000, 25000), T("c14_race", 1200, 10000, 3, 8)], min_nt=200,
     rule="log-call programs against a recording writer / memory stream",
     technique="property-based testing: generated log-call programs, line grammar + exact message oracle, level-filter model; background channel under the controlled scheduler + the same kind of generated program on free-running threads under ThreadSanitizer (race report or functional oracle)",
     level_text="Generated search. Part A: programs of log calls, level changes and direct formatter calls; every delivered line is parsed against the "
                "documented line grammar and compared with the harness' own rendering of the message; filtered calls must produce nothing; cut "
                "lines must stay inside the buffer and end in a newline. Part B: logging threads and the background channel run under the "
                "controlled scheduler; exactly-once, per-thread order, nothing after clean-up, no leak, no deadlock. Sampling, not proof. Second engine (*_race target): real parallel threads under ThreadSanitizer, whose happens-before analysis sees unsynchronised accesses that the controlled scheduler cannot (a section without lock calls has no decision point); a report or a functional failure there is a violation, replayed 12 times and reported when it shows twice.",
     assumptions=["timestamps are checked for their format only (the wall clock is not an oracle)",
                  "clean-up of the background channel is called after the sending threads are done (API requirement)",
                  "sequential consistency for the threaded part (DESIGN 4.4)"])
